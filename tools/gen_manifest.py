#!/usr/bin/env python3
"""Regenerates /verif/MANIFEST.json from the table below (so that it is always valid and
consistent with what `check` supports).  Run after claiming / unclaiming a property."""
import json, os, subprocess

VERIF = os.path.dirname(os.path.dirname(os.path.abspath(__file__)))

TRUST = ("Trusted: Coq 8.16.1 kernel + vm_compute (no native_compute); Print Assumptions of every property theorem: "
         "closed under the global context (no axioms) - except C15_gate_ieee, C15_draw_exact and C18_f64_ieee, which compare the gate, its draw and the PRNG's f64 with Flocq's IEEE-754 formalisation and so depend on the standard library's axioms ClassicalDedekindReals.sig_not_dec, ClassicalDedekindReals.sig_forall_dec, FunctionalExtensionality.functional_extensionality_dep and Classical_Prop.classic; translators tools/gen_src.py, tools/gen_mut.py, tools/gen_drv.py, tools/gen_utils.py, tools/gen_seedwit.py (witness data only); extraction (ExtrOcamlBasic only, "
         "no Extract Constant/Inductive of our own) + OCaml driver + Rust harness as unverified glue; reference machine "
         "and lexer are my reading of CPython pickletools (table generated from pickletools.opcodes). ")

CLAIMS = {
    'C01': dict(
        text="Theorem C01_tokens (Coq): every run of the envelope model run_R is accepted by the dis-style reference machine, by the refinement step_refines (68 opcode cases) lifted through body, collapse tail and STOP; tie: translator-regenerated can_emit/rows proved equal to the model (SrcEquiv), suite S1 (every recorded implementation step must be a member of the envelope and reproduce sim_step), oracle = extracted ref machine over implementation outputs.",
        note="hand-modelled process_stack_ops/emitters tied by suite S1 on recorded traces and by S8 (every small simulated state built by hand, one step of every opcode); cleanup_for_stop's loop guards and opcode choices are regenerated from stack_ops.rs by tools/gen_drv.py and proved to rebuild the model's (C11_src_cleanup, soft tie).",
        technique="refinement proof in Coq + translator tie + step-wise correspondence"),
    'C02': dict(
        text="Theorem C02_tokens: memo_ok holds before every step of the reference run (memo clauses of the refinement; PUT index = |memo| is fresh by the key-sequence invariant, GET index is a key in safe mode); tie as C01.",
        note="hand-modelled process_stack_ops/emitters/cleanup tied by suite S1 on sampled traces.",
        technique="refinement proof in Coq + translator tie + step-wise correspondence"),
    'C03': dict(
        text="Theorems C03_tokens / C03_step: the kind requirement req_ok (written from the property statement) holds before every step; per-opcode content is guard of can_emit + slot compatibility; the guard function is regenerated from validation.rs on every run and proved equal to the model.",
        note="the stack helpers of utils.rs that can_emit is written in are regenerated over the Vec view of the stack by tools/gen_utils.py and proved equal to the model's (C03_src_helpers in Properties/C03r.v; soft tie: an unreadable source degrades it to correspondence only); the kinds pushed by process_stack_ops are hand-modelled and tied by S1 / S8.",
        technique="refinement proof in Coq over the regenerated can_emit"),
    'C05': dict(
        text="Theorem C05_tokens: in every run of the envelope each token's opcode has CPython protocol <= v (rows regenerated from opcodes.rs and proved equal to the model's; tail opcodes by cleanup_facts), PROTO v leads iff v >= 2 and occurs nowhere else; oracle (extracted) re-checks this and the 7-bit claim for protocol 0 on every implementation output.",
        note="emitters and cleanup_for_stop hand-modelled, tied by S1.",
        technique="Coq proof over the envelope model + regenerated rows + correspondence"),
    'C10': dict(
        text="Theorem C10_tokens: no EXT1/2/4 token unless allow_ext, no NEXT_BUFFER/READONLY_BUFFER unless allow_buffer, for every run of the envelope including unsafe configurations (TypeConfusion's replacements are ten fixed value pushers); guard function regenerated from validation.rs.",
        note="emitters, TypeConfusion and cleanup hand-modelled, tied by S1.",
        technique="Coq proof over the envelope model + regenerated can_emit + correspondence"),
    'C11': dict(
        text="Theorem C11_tokens: token count = header (<= 2) + T + tail (<= 2T+1) + 1 with T within the knobs; each body step is exactly one token (S1 checks that each step's bytes decode to exactly one opcode and that the recorded T equals the number of body steps).",
        note="T is drawn by the driver: the draw (`min + choose_index(max.saturating_sub(min))`) is regenerated from core.rs by tools/gen_drv.py and proved to be the model's and to land within the knobs (C11_src_target, C11_src_decisions in Properties/C11r.v; soft tie: an unreadable source degrades it to correspondence only); also tied by S1 (hook records T).",
        technique="Coq counting proof over the envelope model + correspondence"),
    'C17': dict(
        text="Theorems C17_prefixes / C17_meaning: after every prefix of every run the reference state is related to the simulated state by Inv (same depth, MARK positions, compatible kinds, same memo keys); S1 evaluates exactly this relation (extracted invb) on the implementation's own per-opcode snapshots.",
        note="hand-modelled process_stack_ops tied by S1 snapshots.",
        technique="inductive invariant in Coq + snapshot correspondence"),
}
# merged from tools/claims_extra.json when present (written as further properties are built)
extra = os.path.join(VERIF, 'tools', 'claims_extra.json')
if os.path.exists(extra):
    CLAIMS.update(json.load(open(extra)))

ALL = ['C%02d' % i for i in range(1, 19)]
NA_REASON = "check not built yet in this revision (work in progress, see DESIGN.md section 11); the technique applies"


def main():
    repo_log = subprocess.run(['git', '-C', '/repo', 'log', '--format=%h %s'], capture_output=True, text=True).stdout.splitlines()
    fixes = [l.split()[0] for l in repo_log if l.split(' ', 1)[1].startswith('fix:')]
    hooks = [l.split()[0] for l in repo_log if l.split(' ', 1)[1].startswith('verif-hooks')]
    checks = []
    for p in ALL:
        if p not in CLAIMS:
            continue
        c = CLAIMS[p]
        checks.append({
            "property_id": p,
            "quick_cmd": "./check %s quick" % p,
            "thorough_cmd": "./check %s thorough" % p,
            "evidence_file": "evidence/%s.json" % p,
            "replay_cmd_template": "./check %s --replay {path}" % p,
            "engine": "coq-model",
            "level_claimed": {"category": "proof", "text": c['text'], "design_ref": "DESIGN.md section 6 (%s)" % p},
            "level_note": TRUST + c['note'],
            "technique": c['technique'],
        })
    m = {
        "version": 1,
        "setup_cmd": "./setup.sh",
        "hooks": {
            "guard": "cargo features verif-hooks (trace recorder, re-exports) and verif-hooks-ext (hooks that call crate-internal functions: mutator dispatch, hand-built states, single emissions); both off by default",
            "enable": "harness/Cargo.toml depends on /repo with features verif-hooks + verif-hooks-ext (fallback: verif-hooks only, when the ext hooks no longer compile against a changed source); built by ./setup.sh and every check (cargo build --offline --release, CARGO_TARGET_DIR=/verif/.build/target)",
            "baseline_off_cmd": "cd /repo && cargo test --workspace --no-fail-fast --offline",
            "source_commits": hooks,
            "add_only": True,
        },
        "engines": [{
            "name": "coq-model", "path": "coq/", "serves_properties": [p for p in ALL if p in CLAIMS],
            "kind_free_text": "Coq 8.16.1 development: executable Gallina model + reference machine + theorems; translator tools/gen_src.py; extracted to OCaml (ocaml/driver.ml) and compared with the Rust harness (harness/) on recorded traces",
        }],
        "checks": checks,
        "not_applicable": [{"property_id": p, "reason": NA_REASON} for p in ALL if p not in CLAIMS],
        "notes": "See DESIGN.md. Fix commits in /repo: %s; hooks: %s." % (' '.join(reversed(fixes)), ' '.join(hooks)),
    }
    json.dump(m, open(os.path.join(VERIF, 'MANIFEST.json'), 'w'), indent=1)
    try:
        import jsonschema
        jsonschema.validate(m, json.load(open('/root/.vp/MANIFEST.schema.json')))
        print('MANIFEST.json valid; claimed:', ' '.join(p for p in ALL if p in CLAIMS))
    except ImportError:
        print('MANIFEST.json written (jsonschema not available)')


if __name__ == '__main__':
    main()
