#!/usr/bin/env python3
"""Translator: regenerate the table-like parts of the Coq model from /repo's CURRENT source.

  coq/gen/SrcOpcodes.v   OpcodeKind::as_u8 and the six PICKLE_OPCODES rows   (src/opcodes.rs)
  coq/gen/SrcCanEmit.v   the whole can_emit decision function                (src/generator/validation.rs)
  coq/gen/SrcConsts.v    constants the proofs rely on                        (source.rs, mod.rs, cli.rs, mutators/*.rs)

coq/SrcEquiv.v then proves the regenerated definitions equal to the hand-written model.
Anything outside the small Rust vocabulary understood here raises TranslateError: that is
reported like a broken proof obligation, never ignored."""
import os, re, sys, hashlib


class TranslateError(Exception):
    pass


# ----------------------------------------------------------------------------- names
def cpython_names():
    import pickletools
    return [o.name for o in pickletools.opcodes]


def rust_to_cp(names):
    """OpcodeKind variant (CamelCase) -> CPython opcode name."""
    return {n.replace('_', '').lower(): n for n in names}


KIND = {'Int': 'KInt', 'Float': 'KFloat', 'Bool': 'KBool', 'None': 'KNone', 'Bytes': 'KBytes',
        'String': 'KString', 'ByteArray': 'KByteArray', 'List': 'KList', 'Tuple': 'KTuple',
        'Dict': 'KDict', 'Set': 'KSet', 'FrozenSet': 'KFrozenSet', 'Mark': 'KMark',
        'Global': 'KGlobal', 'Instance': 'KInstance', 'Callable': 'KCallable',
        'Extension': 'KExtension', 'Any': 'KAny'}


# ----------------------------------------------------------------------------- tokenizer
TOK = re.compile(r'''
    (?P<ws>\s+|//[^\n]*|/\*.*?\*/)
  | (?P<num>0x[0-9a-fA-F_]+|\d[\d_]*(?:_?[ui](?:8|16|32|64|size))?)
  | (?P<id>[A-Za-z_][A-Za-z0-9_]*)
  | (?P<op>::|=>|&&|\|\||>=|<=|==|!=|\.\.=|\.\.|[-+*/%!<>=(){}\[\],;.|&:#?'])
''', re.X | re.S)


def tokenize(src):
    out, i = [], 0
    while i < len(src):
        m = TOK.match(src, i)
        if not m:
            raise TranslateError('cannot tokenize at: %r' % src[i:i + 40])
        i = m.end()
        if m.lastgroup == 'ws':
            continue
        out.append((m.lastgroup, m.group(m.lastgroup)))
    return out


def fn_body(src, name):
    """text between the braces of `fn name(...) ... {`"""
    m = re.search(r'\bfn\s+' + re.escape(name) + r'\b', src)
    if not m:
        raise TranslateError('fn %s not found' % name)
    i = src.index('{', m.end())
    depth, j = 0, i
    while j < len(src):
        ch = src[j]
        if src.startswith('//', j):
            j = src.index('\n', j)
            continue
        if ch == '{':
            depth += 1
        elif ch == '}':
            depth -= 1
            if depth == 0:
                return src[i + 1:j]
        j += 1
    raise TranslateError('unbalanced braces in fn %s' % name)


# ----------------------------------------------------------------------------- parser for can_emit
class P:
    def __init__(self, toks, rmap):
        self.t, self.i, self.rmap = toks, 0, rmap

    def peek(self, k=0):
        return self.t[self.i + k] if self.i + k < len(self.t) else ('eof', '')

    def next(self):
        tok = self.peek()
        self.i += 1
        return tok

    def accept(self, val):
        if self.peek()[1] == val:
            self.i += 1
            return True
        return False

    def expect(self, val):
        tok = self.next()
        if tok[1] != val:
            raise TranslateError('expected %r, got %r (near token %d: %s)' % (
                val, tok[1], self.i, ' '.join(x[1] for x in self.t[max(0, self.i - 8):self.i + 4])))
        return tok

    # --- expressions, Rust precedence: || < && < comparison < additive < multiplicative < unary
    def expr(self, env):
        return self.or_(env)

    def or_(self, env):
        e = self.and_(env)
        while self.accept('||'):
            e = '(%s || %s)' % (e, self.and_(env))
        return e

    def and_(self, env):
        e = self.cmp(env)
        while self.accept('&&'):
            e = '(%s && %s)' % (e, self.cmp(env))
        return e

    def cmp(self, env):
        a = self.arith(env)
        op = self.peek()[1]
        if op in ('>=', '<=', '==', '!=', '<', '>'):
            self.next()
            b = self.arith(env)
            if a[0] != 'n' or b[0] != 'n':
                raise TranslateError('comparison of non-numeric expressions')
            f = {'>=': 'Nat.leb %s %s' % (b[1], a[1]), '<=': 'Nat.leb %s %s' % (a[1], b[1]),
                 '<': 'Nat.ltb %s %s' % (a[1], b[1]), '>': 'Nat.ltb %s %s' % (b[1], a[1]),
                 '==': 'Nat.eqb %s %s' % (a[1], b[1]), '!=': 'negb (Nat.eqb %s %s)' % (a[1], b[1])}[op]
            return '(%s)' % f
        if a[0] != 'b':
            raise TranslateError('numeric expression where a boolean is needed')
        return a[1]

    def arith(self, env):
        a = self.term(env)
        while self.peek()[1] in ('+', '-'):
            op = self.next()[1]
            b = self.term(env)
            if a[0] != 'n' or b[0] != 'n':
                raise TranslateError('arithmetic on booleans')
            a = ('n', '(%s %s %s)' % (a[1], op, b[1]))
        return a

    def term(self, env):
        a = self.unary(env)
        while self.peek()[1] in ('%', '*'):
            op = self.next()[1]
            b = self.unary(env)
            if a[0] != 'n' or b[0] != 'n':
                raise TranslateError('arithmetic on booleans')
            a = ('n', '(Nat.modulo %s %s)' % (a[1], b[1]) if op == '%' else '(%s * %s)' % (a[1], b[1]))
        return a

    def unary(self, env):
        if self.accept('!'):
            a = self.unary(env)
            if a[0] != 'b':
                raise TranslateError('! on a number')
            return ('b', '(negb %s)' % a[1])
        return self.atom(env)

    def kind_pattern(self):
        """StackObject::A(_) | StackObject::B { .. } | ..."""
        ks = []
        while True:
            self.expect('StackObject')
            self.expect('::')
            name = self.next()[1]
            if name not in KIND:
                raise TranslateError('unknown StackObject variant %s' % name)
            ks.append(KIND[name])
            if self.accept('('):
                self.expect('_')
                self.expect(')')
            elif self.accept('{'):
                self.expect('..')
                self.expect('}')
            if not self.accept('|'):
                break
        return ks

    def matches(self, env):
        """matches!(*X.borrow(), PATTERNS)  with X a bound cell variable"""
        self.expect('matches')
        self.expect('!')
        self.expect('(')
        self.expect('*')
        var = self.next()[1]
        if env.get(var, ('', ''))[0] != 'cell':
            raise TranslateError('matches! on unknown variable %s' % var)
        self.expect('.')
        self.expect('borrow')
        self.expect('(')
        self.expect(')')
        self.expect(',')
        ks = self.kind_pattern()
        self.expect(')')
        return ('b', '(match %s with %s => true | _ => false end)' % (env[var][1], ' | '.join(ks)))

    def closure(self, kind):
        """|x| EXPR   -> (var, parser continues)"""
        self.expect('|')
        var = self.next()[1]
        if self.accept(':'):
            while self.peek()[1] != '|':
                self.next()
        self.expect('|')
        return var

    def atom(self, env):
        kind, val = self.peek()
        if val == '(':
            self.next()
            e = self.expr(env)
            self.expect(')')
            return ('b', e)
        if kind == 'num':
            self.next()
            v = re.sub(r'_?[ui](8|16|32|64|size)$', '', val).replace('_', '')
            return ('n', str(int(v, 0)))
        if val in ('true', 'false'):
            self.next()
            return ('b', val)
        if val == 'matches':
            return self.matches(env)
        if val == 'if':
            return ('b', self.if_(env))
        if kind == 'id' and val in env and env[val][0] == 'nat':
            self.next()
            return ('n', env[val][1])
        if kind == 'id' and val in env and env[val][0] == 'bool':
            self.next()
            return ('b', env[val][1])
        if kind == 'id' and val in env and env[val][0] in ('thunk_b', 'thunk_n'):
            # a local closure without parameters, called: its (pure) body is substituted
            self.next()
            self.expect('(')
            self.expect(')')
            return ('b' if env[val][0] == 'thunk_b' else 'n', env[val][1])
        if val == 'self':
            return self.self_(env)
        raise TranslateError('unsupported expression starting at %r' % val)

    def if_(self, env):
        self.expect('if')
        if self.accept('let'):
            self.expect('Some')
            self.expect('(')
            var = self.next()[1]
            self.expect(')')
            self.expect('=')
            src = self.self_(env)
            if src[0] != 'optcell':
                raise TranslateError('if let Some(..) on something that is not an optional cell')
            self.expect('{')
            e1 = self.block(dict(env, **{var: ('cell', 'k_%s' % var)}))
            self.expect('}')
            self.expect('else')
            self.expect('{')
            e2 = self.block(env)
            self.expect('}')
            return '(match %s with Some k_%s => %s | None => %s end)' % (src[1], var, e1, e2)
        c = self.expr(env)
        self.expect('{')
        e1 = self.block(env)
        self.expect('}')
        self.expect('else')
        if self.peek()[1] == 'if':
            e2 = self.if_(env)
        else:
            self.expect('{')
            e2 = self.block(env)
            self.expect('}')
        return '(if %s then %s else %s)' % (c, e1, e2)

    def self_(self, env):
        self.expect('self')
        self.expect('.')
        name = self.next()[1]
        if name == 'state':
            self.expect('.')
            f = self.next()[1]
            if f == 'proto_emitted':
                return ('b', '(proto_emitted s)')
            if f == 'stack':
                self.expect('.')
                m = self.next()[1]
                if m == 'inner':
                    self.expect('.')
                    m = self.next()[1]
                self.expect('(')
                self.expect(')')
                if m == 'len':
                    return ('n', '(stack_len s)')
                if m == 'is_empty':
                    return ('b', '(Nat.eqb (stack_len s) 0)')
                raise TranslateError('unsupported stack method %s' % m)
            if f == 'memo':
                self.expect('.')
                m = self.next()[1]
                self.expect('(')
                self.expect(')')
                if m == 'is_empty':
                    return ('b', '(N.eqb (memo_len s) 0)')
                if m == 'len':
                    return ('n', '(N.to_nat (memo_len s))')
                raise TranslateError('unsupported memo method %s' % m)
            if f == 'version':
                raise TranslateError('can_emit reads state.version: not in the modelled vocabulary')
            raise TranslateError('unsupported state field %s' % f)
        flags = {'allow_ext_opcodes': '(c_ext c)', 'allow_buffer_opcodes': '(c_buf c)',
                 'unsafe_mutations': '(c_unsafe c)'}
        if name in flags:
            return ('b', flags[name])
        depth_q = {'is_list_at', 'is_dict_at', 'is_tuple_at', 'is_string_at', 'is_instance_at',
                   'is_callable_at'}
        if name in depth_q:
            self.expect('(')
            d = self.arith(env)
            self.expect(')')
            if d[0] != 'n':
                raise TranslateError('depth argument must be numeric')
            return ('b', '(%s s %s)' % (name, d[1]))
        nullary = {'has_mark', 'is_list_at_mark', 'is_dict_at_mark', 'is_set_at_mark',
                   'is_callable_above_mark'}
        if name in nullary:
            self.expect('(')
            self.expect(')')
            return ('b', '(%s s)' % name)
        if name == 'count_items_to_mark':
            self.expect('(')
            self.expect(')')
            self.expect('.')
            m = self.next()[1]
            if m == 'is_some':
                self.expect('(')
                self.expect(')')
                return ('b', '(match count_items_to_mark s with Some _ => true | None => false end)')
            if m != 'is_some_and':
                raise TranslateError('unsupported Option method %s' % m)
            self.expect('(')
            var = self.closure('nat')
            e = self.expr(dict(env, **{var: ('nat', 'n_%s' % var)}))
            self.expect(')')
            return ('b', '(match count_items_to_mark s with Some n_%s => %s | None => false end)' % (var, e))
        if name in ('peek', 'peek_at'):
            self.expect('(')
            d = '0'
            if name == 'peek_at':
                a = self.arith(env)
                d = a[1]
            self.expect(')')
            if self.peek()[1] != '.':
                return ('optcell', '(peek_at s %s)' % d)
            self.expect('.')
            m = self.next()[1]
            if m in ('is_some', 'is_none'):
                self.expect('(')
                self.expect(')')
                return ('b', '(match peek_at s %s with Some _ => %s | None => %s end)' % (
                    d, 'true' if m == 'is_some' else 'false', 'false' if m == 'is_some' else 'true'))
            if m != 'is_some_and':
                raise TranslateError('unsupported Option method %s' % m)
            self.expect('(')
            var = self.closure('cell')
            braces = self.accept('{')
            e = self.expr(dict(env, **{var: ('cell', 'k_%s' % var)}))
            if braces:
                self.expect('}')
            self.expect(')')
            return ('b', '(match peek_at s %s with Some k_%s => %s | None => false end)' % (d, var, e))
        helpers = getattr(self, 'helpers', {})
        if name in helpers and name not in getattr(self, 'inlining', ()):
            # a private `fn name(&self) -> bool` next to can_emit (validation.rs / utils.rs) that is not one of the modelled
            # primitives: its body is read with the same vocabulary and substituted (no recursion)
            self.expect('(')
            self.expect(')')
            sub = P(tokenize(helpers[name]), self.rmap)
            sub.helpers, sub.inlining = helpers, tuple(getattr(self, 'inlining', ())) + (name,)
            e = sub.block({})
            if sub.peek()[0] != 'eof':
                raise TranslateError('helper %s: statements outside the modelled vocabulary' % name)
            return ('b', e)
        raise TranslateError('unsupported self.%s in can_emit' % name)

    def block(self, env):
        """statements: `if C { return E; }` / `return E;` / final expression"""
        if self.peek()[1] == 'return':
            self.next()
            e = self.expr(env)
            self.accept(';')
            return e
        if self.peek()[1] == 'if':
            # either an early-return statement or an if-expression in tail position
            save = self.i
            self.next()
            if self.peek()[1] != 'let':
                c = self.expr(env)
                self.expect('{')
                if self.peek()[1] == 'return':
                    self.next()
                    r = self.expr(env)
                    self.accept(';')
                    self.expect('}')
                    if self.peek()[1] != 'else':
                        rest = self.block(env)
                        return '(if %s then %s else %s)' % (c, r, rest)
            self.i = save
        e = self.expr(env)
        return e

    def bindings(self):
        """`use OpcodeKind::*;` and pure local bindings before the match:  let x = EXPR;  let f = || EXPR;  (substituted)"""
        env = {}
        while self.peek()[0] != 'eof':
            if self.accept('use'):
                while self.next()[1] != ';':
                    pass
                continue
            self.expect('let')
            name = self.next()[1]
            if name == 'mut':
                raise TranslateError('can_emit: mutable local %s' % self.peek()[1])
            if self.accept(':'):
                while self.peek()[1] != '=':
                    self.next()
            self.expect('=')
            thunk = self.accept('||')
            braces = thunk and self.accept('{')
            a = self.arith(env) if not thunk and self._numeric_ahead(env) else None
            if a is None:
                e = self.expr(env)
                env[name] = ('thunk_b' if thunk else 'bool', e)
            else:
                env[name] = ('nat', a[1])
            if braces:
                self.expect('}')
            self.expect(';')
        return env

    def _numeric_ahead(self, env):
        """is the expression that starts here a number? (try to parse it as arithmetic followed by `;`)"""
        save = self.i
        try:
            a = self.arith(env)
            ok = a[0] == 'n' and self.peek()[1] == ';'
        except TranslateError:
            ok = False
        self.i = save
        return ok

    def arms(self, env0=None):
        env0 = env0 or {}
        out = []
        while self.peek()[0] != 'eof':
            pats = []
            while True:
                if self.accept('OpcodeKind'):
                    self.expect('::')
                name = self.next()[1]
                key = name.lower()
                if key not in self.rmap:
                    raise TranslateError('unknown opcode pattern %s' % name)
                pats.append(self.rmap[key])
                if not self.accept('|'):
                    break
            self.expect('=>')
            if self.accept('{'):
                e = self.block(dict(env0))
                self.expect('}')
                self.accept(',')
            else:
                e = self.expr(dict(env0))
                self.expect(',')
            out.append((pats, e))
        return out


def translate_can_emit(repo, names):
    src = open(os.path.join(repo, 'src/generator/validation.rs')).read()
    body = fn_body(src, 'can_emit')
    m = re.search(r'match\s+opcode\s*\{', body)
    if not m:
        raise TranslateError('can_emit: `match opcode {` not found')
    pre = body[:m.start()]
    # parameterless boolean helper methods defined next to can_emit (other than the modelled primitives of utils.rs)
    helpers = {}
    known = {'has_mark', 'is_list_at_mark', 'is_dict_at_mark', 'is_set_at_mark', 'is_callable_above_mark'}
    for fsrc in (src, open(os.path.join(repo, 'src/generator/utils.rs')).read()):
        for hm in re.finditer(r'\bfn\s+(\w+)\s*\(\s*&self\s*\)\s*->\s*bool\s*\{', fsrc):
            if hm.group(1) not in known:
                try:
                    helpers[hm.group(1)] = fn_body(fsrc, hm.group(1))
                except TranslateError:
                    pass
    p0 = P(tokenize(pre), rust_to_cp(names))
    p0.helpers = helpers
    env0 = p0.bindings()
    inner = body[m.end():]
    depth, j = 1, 0
    while j < len(inner):
        if inner.startswith('//', j):
            j = inner.index('\n', j)
            continue
        if inner[j] == '{':
            depth += 1
        elif inner[j] == '}':
            depth -= 1
            if depth == 0:
                break
        j += 1
    if re.sub(r'//[^\n]*|\s+', '', inner[j + 1:]):
        raise TranslateError('can_emit: unexpected statements after the match')
    pa = P(tokenize(inner[:j]), rust_to_cp(names))
    pa.helpers = helpers
    arms = pa.arms(env0)
    lines = ["(* GENERATED on every run by tools/gen_src.py from /repo/src/generator/validation.rs *)",
             "From Coq Require Import List NArith Bool Arith.", "Import ListNotations.",
             "From PF Require Import Opcodes Config Sim.", "",
             "Module Src.",
             "Definition can_emit (c : config) (s : sim) (o : opcode) : bool :=",
             "  match o with"]
    for pats, e in arms:
        lines.append("  | %s =>\n      %s" % (' | '.join(pats), e))
    lines += ["  end.", "End Src.", ""]
    return '\n'.join(lines)


def translate_opcodes(repo, names):
    src = open(os.path.join(repo, 'src/opcodes.rs')).read()
    rmap = rust_to_cp(names)
    body = fn_body(src, 'as_u8')
    pairs = re.findall(r'OpcodeKind::(\w+)\s*=>\s*(0x[0-9a-fA-F]+|\d+)\s*,', body)
    rest = re.sub(r'OpcodeKind::(\w+)\s*=>\s*(0x[0-9a-fA-F]+|\d+)\s*,|match\s+self\s*\{|\}|//[^\n]*|\s+', '', body)
    if rest:
        raise TranslateError('as_u8: unexpected content %r' % rest[:80])
    lines = ["(* GENERATED on every run by tools/gen_src.py from /repo/src/opcodes.rs *)",
             "From Coq Require Import List NArith.", "Import ListNotations.",
             "From PF Require Import Opcodes Config.", "", "Module Src.",
             "Definition as_u8 (o : opcode) : N :=", "  match o with"]
    for n, v in pairs:
        if n.lower() not in rmap:
            raise TranslateError('as_u8: unknown variant %s' % n)
        lines.append("  | %s => %d" % (rmap[n.lower()], int(v, 0)))
    lines.append("  end%N.\n")
    m = re.search(r'PICKLE_OPCODES[^=]*=\s*phf_map!\s*\{', src)
    if not m:
        raise TranslateError('PICKLE_OPCODES not found')
    tab = src[m.end():]
    tab = re.sub(r'//[^\n]*', '', tab)
    rows = {}
    for rm in re.finditer(r'(\d+)_u8\s*=>\s*&\[(.*?)\]\s*,', tab, re.S):
        items = [x.strip() for x in rm.group(2).split(',') if x.strip()]
        ops = []
        for it in items:
            mm = re.fullmatch(r'OpcodeKind::(\w+)', it)
            if not mm or mm.group(1).lower() not in rmap:
                raise TranslateError('row %s: unexpected entry %r' % (rm.group(1), it))
            ops.append(rmap[mm.group(1).lower()])
        rows[int(rm.group(1))] = ops
    if sorted(rows) != [0, 1, 2, 3, 4, 5]:
        raise TranslateError('PICKLE_OPCODES: expected rows 0..5, found %s' % sorted(rows))
    lines.append("Definition row (v : version) : list opcode :=\n  match v with")
    for v in range(6):
        lines.append("  | V%d => [%s]" % (v, '; '.join(rows[v])))
    lines += ["  end.", "End Src.", ""]
    return '\n'.join(lines)



CONSTS = {}


def collect_consts(*sources):
    """`const NAME: T = value;` (also `pub`/`pub(crate)` and `static`) of the given source texts, for resolving named constants"""
    for src in sources:
        for m in re.finditer(r'(?:pub(?:\([^)]*\))?\s+)?(?:const|static)\s+([A-Z_][A-Z0-9_]*)\s*:\s*[^=;]+=\s*([^;]+);', src):
            CONSTS[m.group(1)] = m.group(2).strip()


def resolve(txt, depth=0):
    t = txt.strip()
    t = re.sub(r'^(?:Self|self|crate|super)(?:::\w+)*::(?=[A-Z_][A-Z0-9_]*$)', '', t)
    if depth < 5 and re.fullmatch(r'[A-Z_][A-Z0-9_]*', t) and t in CONSTS:
        return resolve(CONSTS[t], depth + 1)
    t = re.sub(r'\s+as\s+\w+$', '', t)
    t = re.sub(r'(?<=[0-9a-fA-F])_?(?:u8|u16|u32|u64|usize|i8|i16|i32|i64|isize|f32|f64)$', '', t)
    return t


def f64_bits(txt):
    import struct
    t = resolve(txt)
    special = {'f64::MAX': 0x7FEFFFFFFFFFFFFF, 'f64::MIN': 0xFFEFFFFFFFFFFFFF, 'f64::INFINITY': 0x7FF0000000000000,
               'f64::NEG_INFINITY': 0xFFF0000000000000, 'f64::NAN': 0x7FF8000000000000}
    if t in special:
        return special[t]
    try:
        return struct.unpack('<Q', struct.pack('<d', float(t.replace('_', ''))))[0]
    except ValueError:
        raise TranslateError('not a float literal: %r' % txt)


def byte_lit(x):
    """a Rust u8 literal: 0x49, 73, 73u8, b'I', b'\\n', b'\\x49'"""
    x = re.sub(r'_?u8$', '', x.strip())
    if x.startswith("b'"):
        c = x[2:-1]
        if c.startswith('\\x'):
            return int(c[2:], 16)
        if c.startswith('\\'):
            return {'n': 10, 't': 9, 'r': 13, '0': 0, '\\': 92, "'": 39, '"': 34}[c[1]]
        return ord(c)
    return int(x.replace('_', ''), 0)


def int_const(txt, bits=64):
    t = resolve(txt).replace('_', '')
    table = {'i32::MAX': 2**31 - 1, 'i32::MIN': -2**31, 'i64::MAX': 2**63 - 1, 'i64::MIN': -2**63}
    if t in table:
        return table[t]
    return int(t, 0)


def translate_ascii(repo, names):
    """ASCII_CHARS of src/generator/source.rs"""
    rd = lambda rel: open(os.path.join(repo, rel)).read()
    out = ["(* GENERATED on every run by tools/gen_src.py from src/generator/source.rs *)",
           "From Coq Require Import List NArith ZArith Bool.", "Import ListNotations.",
           "From PF Require Import Opcodes Config Front.", "", "Module Src.", "Local Open Scope N_scope."]
    # ASCII_CHARS
    m = re.search(r'const\s+ASCII_CHARS\s*:\s*&\[u8\]\s*=\s*b"((?:[^"\\]|\\.)*)"\s*;', rd('src/generator/source.rs'))
    if not m:
        raise TranslateError('ASCII_CHARS not found')
    raw, chars, i = m.group(1), [], 0
    while i < len(raw):
        if raw[i] == '\\':
            esc = raw[i + 1]
            chars.append({'\\': 92, '"': 34, 'n': 10, 't': 9, 'r': 13, "'": 39, '0': 0}[esc])
            i += 2
        else:
            chars.append(ord(raw[i]))
            i += 1
    out.append("Definition ascii_chars : list N := [%s]." % '; '.join(map(str, chars)))
    out += ["End Src.", ""]
    return '\n'.join(out)


def translate_front(repo, names):
    """Default for Generator, clap defaults, MutatorKind::all_mutators and create"""
    rd = lambda rel: open(os.path.join(repo, rel)).read()
    out = ["(* GENERATED on every run by tools/gen_src.py from src/generator/mod.rs, src/cli.rs, src/mutators/mod.rs *)",
           "From Coq Require Import List NArith ZArith Bool.", "Import ListNotations.",
           "From PF Require Import Opcodes Config Front.", "", "Module Src.", "Local Open Scope N_scope."]
    # Default for Generator
    src = rd('src/generator/mod.rs')
    body = re.search(r'impl\s+Default\s+for\s+Generator\s*\{.*?fn\s+default\s*\(\s*\)\s*->\s*Self\s*\{\s*Self\s*\{(.*?)\}\s*\}\s*\}', src, re.S)
    if not body:
        raise TranslateError('impl Default for Generator not found')
    fields = dict((k.strip(), v.strip()) for k, v in re.findall(r'(\w+)\s*:\s*([^,]+),', body.group(1)))
    for k in ('min_opcodes', 'max_opcodes', 'mutation_rate', 'unsafe_mutations', 'allow_ext_opcodes', 'allow_buffer_opcodes'):
        if k not in fields:
            raise TranslateError('Default for Generator: field %s missing' % k)
    collect_consts(src, rd('src/cli.rs'), rd('src/mutators/boundary.rs'))
    out.append("Definition gen_default_min : N := %d." % int_const(fields['min_opcodes']))
    out.append("Definition gen_default_max : N := %d." % int_const(fields['max_opcodes']))
    out.append("Definition gen_default_rate : N := %d." % f64_bits(fields['mutation_rate']))
    out.append("Definition gen_default_flags : list bool := [%s]." % '; '.join(
        fields[k] for k in ('unsafe_mutations', 'allow_ext_opcodes', 'allow_buffer_opcodes')))
    if not re.search(r'mutators\s*:\s*Vec::new\(\)', body.group(1)):
        raise TranslateError('Default for Generator: mutators is not Vec::new()')
    # clap defaults
    cli = rd('src/cli.rs')
    def clap_default(field):
        mm = re.search(r'#\[arg\(([^\]]*)\)\]\s*pub\s+%s\s*:' % field, cli, re.S)
        if not mm:
            raise TranslateError('cli.rs: field %s not found' % field)
        dv = re.search(r'default_value_t\s*=\s*([0-9A-Za-z_.:]+)', mm.group(1))
        if not dv:
            raise TranslateError('cli.rs: %s has no default_value_t' % field)
        return resolve(dv.group(1)).replace('_', '')
    out.append("Definition cli_default_min : N := %d." % int_const(clap_default('min_opcodes')))
    out.append("Definition cli_default_max : N := %d." % int_const(clap_default('max_opcodes')))
    out.append("Definition cli_default_samples : N := %d." % int_const(clap_default('samples')))
    out.append("Definition cli_default_rate : N := %d." % f64_bits(clap_default('mutation_rate')))
    # all_mutators
    mm = rd('src/mutators/mod.rs').split('#[cfg(test)]')[0]
    body = fn_body(mm, 'all_mutators')
    v = re.search(r'vec!\s*\[(.*?)\]', body, re.S)
    push = re.search(r'if\s+unsafe_mutations\s*\{\s*mutators\.push\(\s*MutatorKind::(\w+)\s*\)\s*;\s*\}', body)
    if not v or not push:
        raise TranslateError('all_mutators: unexpected shape')
    kinds = re.findall(r'MutatorKind::(\w+)', v.group(1))
    rest = re.sub(r'let\s+mut\s+mutators\s*=\s*vec!\s*\[.*?\]\s*;|if\s+unsafe_mutations\s*\{[^}]*\}|mutators|//[^\n]*|\s+', '', body, flags=re.S)
    if rest:
        raise TranslateError('all_mutators: unexpected statements %r' % rest[:60])
    out.append("Definition all_mutators (unsafe_mutations : bool) : list mkind :=\n  [%s] ++ (if unsafe_mutations then [K%s] else [])." % (
        '; '.join('K' + k for k in kinds), push.group(1)))
    # create(): which constructor gets the unsafe flag
    cbody = fn_body(mm, 'create')
    arms = re.findall(r'MutatorKind::(\w+)\s*=>\s*(?:\{\s*panic!|Box::new\(\s*(\w+)(::new\(\s*unsafe_mode\s*\))?)', cbody)
    ctor = {'BitFlipMutator': 'MBitflip', 'BoundaryMutator': 'MBoundary', 'OffByOneMutator': 'MOffByOne', 'StringLengthMutator': 'MStringLen',
            'CharacterMutator': 'MCharacter', 'MemoIndexMutator': 'MMemoIndex', 'TypeConfusionMutator': 'MTypeConf'}
    lines = []
    for k, c, flag in arms:
        if not c:
            lines.append("  | K%s => None" % k)
        elif c not in ctor:
            raise TranslateError('create: unknown mutator type %s' % c)
        else:
            lines.append("  | K%s => Some (%s%s)" % (k, ctor[c], ' unsafe_mode' if flag else ''))
    out.append("Definition create (unsafe_mode : bool) (k : mkind) : option mutator :=\n  match k with\n%s\n  end." % '\n'.join(lines))
    out += ["End Src.", ""]
    return '\n'.join(out)


def translate_mut(repo, names):
    """the mutators' boundary arrays and TypeConfusion's opcode_to_type byte table"""
    rd = lambda rel: open(os.path.join(repo, rel)).read()
    out = ["(* GENERATED on every run by tools/gen_src.py from src/mutators/boundary.rs, src/mutators/typeconfusion.rs *)",
           "From Coq Require Import List NArith ZArith Bool.", "Import ListNotations.",
           "From PF Require Import Opcodes Config Front.", "", "Module Src.", "Local Open Scope N_scope."]
    # boundary arrays
    b = rd('src/mutators/boundary.rs').split('#[cfg(test)]')[0]
    arrs = re.findall(r'let\s+boundaries\s*=\s*\[(.*?)\]\s*;', b, re.S)
    if len(arrs) != 3:
        raise TranslateError('boundary.rs: expected three boundary arrays, found %d' % len(arrs))
    def items(a):
        return [x.strip() for x in re.sub(r'//[^\n]*', '', a).split(',') if x.strip()]
    out.append("Definition int_boundaries : list Z := [%s]%%Z." % '; '.join(str(int_const(x, 32)) for x in items(arrs[0])))
    out.append("Definition long_boundaries : list Z := [%s]%%Z." % '; '.join(str(int_const(x, 64)) for x in items(arrs[1])))
    out.append("Definition float_boundaries : list N := [%s]." % '; '.join(str(f64_bits(x)) for x in items(arrs[2])))
    # opcode_to_type
    t = rd('src/mutators/typeconfusion.rs').split('#[cfg(test)]')[0]
    body = fn_body(t, 'opcode_to_type')
    tnum = {'Int': 1, 'Float': 2, 'String': 3, 'Bytes': 4, 'List': 5, 'Dict': 6, 'Tuple': 7, 'None': 8, 'Bool': 9}
    conds = []
    LIT = r"(?:0x[0-9a-fA-F_]+|\d[\d_]*|b'(?:\\\\x[0-9a-fA-F]{2}|\\\\.|[^'\\\\])')(?:_?u8)?"
    for pats, ty in re.findall(r'((?:%s\s*\|?\s*)+)=>\s*Some\(\s*StackType::(\w+)\s*\)' % LIT, re.sub(r'//[^\n]*', '', body)):
        bs = [byte_lit(x) for x in re.findall(LIT, pats)]
        conds.append((bs, tnum[ty]))
    if not conds or not re.search(r'_\s*=>\s*None', body):
        raise TranslateError('opcode_to_type: unexpected shape')
    e = "0"
    for bs, ty in reversed(conds):
        e = "if %s then %d else %s" % (' || '.join('(b =? %d)' % x for x in bs), ty, e)
    out.append("Definition byte_type (b : N) : N :=\n  %s." % e)
    out += ["End Src.", ""]
    return '\n'.join(out)


def write_if_changed(path, text):
    if os.path.exists(path) and open(path).read() == text:
        return False
    with open(path, 'w') as f:
        f.write(text)
    return True


def translate_stdlib(repo, names):
    """data/stdlib_complete.txt (include_str! in emission.rs) as Coq byte strings, in chunks (one huge literal overflows
    coqc's stack); the splitting into lines is done by the model of str::lines (SrcStdlibP.v), not here"""
    src = open(os.path.join(repo, 'src/generator/emission.rs')).read()
    m = re.search(r'include_str!\(\s*"([^"]+)"\s*\)', src)
    if not m:
        raise TranslateError('include_str! of the name table not found in emission.rs')
    path = os.path.normpath(os.path.join(repo, 'src/generator', m.group(1)))
    raw = open(path, 'rb').read()
    if not re.search(r'content\s*\.\s*lines\(\)\s*\.\s*map\(\|s\|\s*s\.to_string\(\)\)\s*\.\s*collect\(\)', src):
        raise TranslateError('load_stdlib_complete no longer splits with content.lines().map(|s| s.to_string()).collect()')
    if not re.search(r'splitn\(\s*2\s*,\s*\'\.\'\s*\)', src) or 'unwrap_or("builtins")' not in src or 'unwrap_or("object")' not in src:
        raise TranslateError('get_random_module no longer splits with splitn(2, \'.\') / builtins / object')
    out = ["(* GENERATED on every run by tools/gen_src.py from %s (include_str! in src/generator/emission.rs) *)" % os.path.relpath(path, repo),
           "From Coq Require Import List NArith Bool Init.Byte.", "Import ListNotations.",
           "Inductive bstr := BS (l : list byte).", "Definition unBS (b : bstr) : list byte := match b with BS l => l end.",
           "Declare Scope bs_scope.", "Delimit Scope bs_scope with bs.", "String Notation bstr BS unBS : bs_scope.", "", "Module Src."]
    chunks, cur = [], []
    def flush():
        if cur:
            chunks.append(''.join(cur)); del cur[:]
    # bytes that a Coq string literal cannot carry verbatim go out as separate numeric chunks
    items = []
    for b in raw:
        if b == 34 or b >= 128 or (b < 32 and b != 10):
            flush(); items.append(('n', b))
        else:
            cur.append(chr(b))
            if len(cur) >= 6000:
                flush()
        while chunks:
            items.append(('s', chunks.pop(0)))
    flush()
    while chunks:
        items.append(('s', chunks.pop(0)))
    defs = []
    for kind, v in items:
        defs.append('(map Byte.to_N (unBS "%s"%%bs))' % v if kind == 's' else '[%d%%N]' % v)
    out.append("Definition stdlib_raw_chunks : list (list N) := [\n%s]." % ';\n'.join(defs))
    out.append("Definition stdlib_raw : list N := concat stdlib_raw_chunks.")
    out.append("Definition stdlib_raw_len : N := %d." % len(raw))
    out.append("End Src.")
    return '\n'.join(out) + '\n'


def main():
    repo = sys.argv[1] if len(sys.argv) > 1 else '/repo'
    out = sys.argv[2] if len(sys.argv) > 2 else os.path.join(os.path.dirname(os.path.abspath(__file__)), '..', 'coq', 'gen')
    os.makedirs(out, exist_ok=True)
    names = cpython_names()
    status = 0
    for fname, fn in (('SrcOpcodes.v', translate_opcodes), ('SrcCanEmit.v', translate_can_emit), ('SrcAscii.v', translate_ascii), ('SrcFront.v', translate_front), ('SrcMut.v', translate_mut), ('SrcStdlib.v', translate_stdlib)):
        try:
            text = fn(repo, names)
        except (TranslateError, KeyError, ValueError, IndexError) as e:
            # leave a file that cannot compile, naming the reason: a broken obligation
            text = '(* TRANSLATION FAILED: %s *)\nDefinition translation_failed : False := I.\n' % str(e).replace('*)', '* )')
            print('TRANSLATE-ERROR %s: %s' % (fname, e))
            status = 3
        write_if_changed(os.path.join(out, fname), text)
    return status


if __name__ == '__main__':
    sys.exit(main())
