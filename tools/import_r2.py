#!/usr/bin/env python3
"""import_r2.py <Cxx> ... : copy round-2 sub-agent deliverables /tmp/wt/r2/<Cxx>/out/{mutantN.diff,demoN.*,notesN.md}
to /verif/seeded/<Cxx>_<N+2>/ (patch.diff, demo, notes.md)"""
import os, sys, shutil, glob
for c in sys.argv[1:]:
    out = '/tmp/wt/r2/%s/out' % c
    for n in (1, 2):
        src = os.path.join(out, 'mutant%d.diff' % n)
        if not os.path.exists(src):
            print(c, n, 'missing'); continue
        d = '/verif/seeded/%s_%d' % (c, n + 2)
        os.makedirs(d, exist_ok=True)
        shutil.copy(src, os.path.join(d, 'patch.diff'))
        for f in glob.glob(os.path.join(out, 'demo%d.*' % n)):
            shutil.copy(f, os.path.join(d, 'demo%s_%d%s' % (c, n + 2, os.path.splitext(f)[1])))
        nf = os.path.join(out, 'notes%d.md' % n)
        if os.path.exists(nf):
            shutil.copy(nf, os.path.join(d, 'notes.md'))
        print('imported', d)
