#!/usr/bin/env python3
"""sandbox.py: a private copy of /verif plus a scratch worktree of /repo under /tmp/vs/<name>, so that seeded changes and
harmless refactorings can be tried (tools/run_seeded.py --sandbox NAME, tools/run_harmless.py --sandbox NAME) while /repo and
/verif themselves stay untouched and usable.  The copy's harness depends on the scratch worktree; its checks run with
VERIF_REPO pointing there.  destroy() removes both (worktree with its build output first)."""
import os, subprocess, shutil, sys

ROOT = '/tmp/vs'


def sh(cmd, **kw):
    return subprocess.run(cmd, shell=True, text=True, capture_output=True, **kw)


def make(name):
    base = os.path.join(ROOT, name)
    verif, repo = os.path.join(base, 'verif'), os.path.join(base, 'repo')
    os.makedirs(base, exist_ok=True)
    sh('git -C /repo worktree remove --force %s' % repo)
    r = sh('git -C /repo worktree add --detach %s HEAD' % repo)
    if r.returncode != 0:
        raise SystemExit('cannot create worktree: ' + r.stderr)
    here = os.path.dirname(os.path.dirname(os.path.abspath(__file__)))
    sh('rsync -a --delete --exclude .git --exclude replays --exclude .cache %s/ %s/' % (here, verif))
    ct = os.path.join(verif, 'harness', 'Cargo.toml')
    s = open(ct).read().replace('path = "/repo"', 'path = "%s"' % repo)
    open(ct, 'w').write(s)
    return verif, repo


def destroy(name):
    base = os.path.join(ROOT, name)
    sh('git -C /repo worktree remove --force %s' % os.path.join(base, 'repo'))
    shutil.rmtree(base, ignore_errors=True)
    sh('git -C /repo worktree prune')


if __name__ == '__main__':
    if sys.argv[1] == 'make':
        print(*make(sys.argv[2]))
    else:
        destroy(sys.argv[2])
