#!/usr/bin/env python3
"""Translator for the numeric mutators: src/mutators/{bitflip,boundary,offbyone,memoindex}.rs ->
coq/gen/SrcMutFns.v.  Each `fn mutate_int / mutate_long / mutate_float / mutate_memo_index` of the four
`impl Mutator for ..` blocks becomes a Gallina function over the model's entropy source
(`Entropy.should_mutate / gen_bool / gen_range`, evaluated in Rust's left-to-right order) and the
integer primitives of SrcPrims.v (wrapping / saturating arithmetic, checked shift, xor on two's
complement).  SrcEqMutFns.v proves them equal to the hand-written Mutators.v.

The Rust subset: `if c { return e; }`, `let x = e;`, a tail expression that is `Some(e)`, `None`,
`if c { .. } else { .. }` or `match e { lit => .., _ => .. }`; expressions over the parameters, integer
and float literals, `T::MAX/MIN`, f64::INFINITY/NEG_INFINITY/NAN, array literals, indexing, `.len()`,
`^`, `<<`, `.wrapping_add/sub`, `.saturating_add/sub`, `!`, `self.unsafe_mode` and the three source
methods.  Anything else raises TranslateError (exit 3): the tie of that function then rests on the
correspondence suite S3 alone, which is reported, not hidden."""
import os, re, struct, sys

sys.path.insert(0, os.path.dirname(os.path.abspath(__file__)))
from gen_src import TranslateError, fn_body

TOK = re.compile(r'''
    (?P<ws>\s+|//[^\n]*|/\*.*?\*/)
  | (?P<num>0x[0-9a-fA-F_]+|\d[\d_]*(?:_?[ui](?:8|16|32|64|size))?)
  | (?P<id>[A-Za-z_][A-Za-z0-9_]*)
  | (?P<op>::|=>|&&|\|\||>=|<=|==|!=|\.\.=|\.\.|[-+*/%!<>=(){}\[\],;.|&:#?'^])
''', re.X | re.S)


def tokenize(src):
    out, i = [], 0
    while i < len(src):
        m = TOK.match(src, i)
        if not m:
            raise TranslateError('cannot tokenize at: %r' % src[i:i + 40])
        i = m.end()
        if m.lastgroup != 'ws':
            out.append((m.lastgroup, m.group(m.lastgroup)))
    return out


# ----------------------------------------------------------------------------- parser -> AST
class Parser:
    def __init__(self, toks):
        self.t, self.i = toks, 0

    def peek(self, k=0):
        return self.t[self.i + k] if self.i + k < len(self.t) else ('eof', '')

    def next(self):
        tok = self.peek()
        self.i += 1
        return tok

    def accept(self, v):
        if self.peek()[1] == v:
            self.i += 1
            return True
        return False

    def expect(self, v):
        tok = self.next()
        if tok[1] != v:
            raise TranslateError('expected %r, got %r near: %s' % (v, tok[1], ' '.join(x[1] for x in self.t[max(0, self.i - 6):self.i + 4])))

    def block(self):
        """'{' stmt* '}' -> list of statements; the last may be ('tail', expr)"""
        self.expect('{')
        out = []
        while not self.accept('}'):
            if self.accept('let'):
                self.accept('mut')
                name = self.next()[1]
                if self.accept(':'):
                    while self.peek()[1] != '=':
                        self.next()
                self.expect('=')
                e = self.expr()
                self.expect(';')
                out.append(('let', name, e))
            elif self.accept('return'):
                e = self.expr()
                self.accept(';')
                out.append(('return', e))
            else:
                e = self.expr()
                if self.accept(';'):
                    out.append(('expr', e))
                elif self.peek()[1] == '}':
                    out.append(('tail', e))
                elif e[0] == 'if' and e[3] is None:
                    out.append(('expr', e))        # `if c { return ..; }` used as a statement
                else:
                    raise TranslateError('statement form not understood near %r' % self.peek()[1])
        return out

    def expr(self):
        return self.bitxor()

    def bitxor(self):
        a = self.shift()
        while self.peek()[1] == '^':
            self.next()
            a = ('bin', '^', a, self.shift())
        return a

    def shift(self):
        a = self.additive()
        while self.peek()[1] == '<' and self.peek(1)[1] == '<':
            self.next(); self.next()
            a = ('bin', '<<', a, self.additive())
        return a

    def additive(self):
        a = self.unary()
        while self.peek()[1] in ('+', '-'):
            op = self.next()[1]
            a = ('bin', op, a, self.unary())
        return a

    def unary(self):
        if self.accept('!'):
            return ('not', self.unary())
        if self.accept('-'):
            return ('neg', self.unary())
        return self.postfix()

    def postfix(self):
        e = self.atom()
        while True:
            if self.accept('.'):
                name = self.next()[1]
                if self.accept('('):
                    args = []
                    while not self.accept(')'):
                        args.append(self.expr())
                        self.accept(',')
                    e = ('call', e, name, args)
                else:
                    e = ('field', e, name)
            elif self.accept('['):
                idx = self.expr()
                self.expect(']')
                e = ('index', e, idx)
            else:
                return e

    def atom(self):
        kind, val = self.peek()
        if val == '(':
            self.next()
            e = self.expr()
            self.expect(')')
            return e
        if val == '[':
            self.next()
            items = []
            while not self.accept(']'):
                items.append(self.expr())
                self.accept(',')
            return ('array', items)
        if kind == 'num':
            self.next()
            if self.peek()[1] == '.' and self.peek(1)[0] == 'num':      # 1.0
                self.next()
                frac = self.next()[1]
                return ('float', float('%s.%s' % (val, frac)))
            v = re.sub(r'_?[ui](8|16|32|64|size)$', '', val).replace('_', '')
            return ('int', int(v, 0))
        if val == 'if':
            self.next()
            c = self.expr()
            b1 = self.block()
            b2 = None
            if self.accept('else'):
                b2 = [('tail', self.atom())] if self.peek()[1] == 'if' else self.block()
            return ('if', c, b1, b2)
        if val == 'match':
            self.next()
            scrut = self.expr()
            self.expect('{')
            arms = []
            while not self.accept('}'):
                if self.accept('_'):
                    pat = None
                else:
                    p = self.next()
                    if p[0] != 'num':
                        raise TranslateError('match pattern %r is not an integer literal or _' % p[1])
                    pat = int(p[1].replace('_', ''), 0)
                self.expect('=>')
                body = self.block() if self.peek()[1] == '{' else [('tail', self.expr())]
                self.accept(',')
                arms.append((pat, body))
            return ('match', scrut, arms)
        if kind == 'id':
            self.next()
            if self.accept('::'):
                return ('path', val, self.next()[1])
            if val in ('Some',) and self.accept('('):
                e = self.expr()
                self.expect(')')
                return ('some', e)
            if val == 'None':
                return ('none',)
            return ('var', val)
        raise TranslateError('unsupported expression starting at %r' % val)


# ----------------------------------------------------------------------------- AST -> Gallina
WIDTH = {'i32': 32, 'i64': 64}
CONST = {('i32', 'MAX'): '2147483647%Z', ('i32', 'MIN'): '(-2147483648)%Z',
         ('i64', 'MAX'): '9223372036854775807%Z', ('i64', 'MIN'): '(-9223372036854775808)%Z',
         ('usize', 'MAX'): '18446744073709551615%N'}
FCONST = {'MAX': float.fromhex('0x1.fffffffffffffp+1023'), 'MIN': -float.fromhex('0x1.fffffffffffffp+1023'),
          'INFINITY': float('inf'), 'NEG_INFINITY': float('-inf'), 'NAN': float('nan')}


def f64_bits(x):
    if x != x:
        return 0x7ff8000000000000          # f64::NAN
    return struct.unpack('<Q', struct.pack('<d', x))[0]


class Gen:
    """one function: value type `ty` in {'i32','i64','usize','f64'}"""
    def __init__(self, ty, value_names):
        self.ty, self.value_names, self.n = ty, value_names, 0
        self.env = {}      # local name -> ('arr', gallina, elemtype, length) | ('val', gallina, type)

    def fresh(self):
        self.n += 1
        return 't%d' % self.n

    def lit(self, v, ty):
        if ty == 'f64':
            return '%d%%N' % f64_bits(float(v))
        if ty in WIDTH:
            return '(%d)%%Z' % v
        return '%d%%N' % v

    # pure(e, ty) -> (binds, term): binds = list of Gallina binder lines executed before, in order
    def ex(self, e, want):
        k = e[0]
        if k == 'int':
            return [], self.lit(e[1], want)
        if k == 'float':
            return [], self.lit(e[1], 'f64')
        if k == 'neg':
            if e[1][0] == 'int':
                return [], self.lit(-e[1][1], want)
            if e[1][0] == 'float':
                return [], self.lit(-e[1][1], 'f64')
            raise TranslateError('unary minus on a non-literal')
        if k == 'path':
            if e[1] == 'f64' and e[2] in FCONST:
                return [], self.lit(FCONST[e[2]], 'f64')
            if (e[1], e[2]) in CONST:
                return [], CONST[(e[1], e[2])]
            raise TranslateError('unknown constant %s::%s' % (e[1], e[2]))
        if k == 'var':
            if e[1] in self.value_names:
                return [], 'value'
            if e[1] in self.env and self.env[e[1]][0] == 'val':
                return [], self.env[e[1]][1]
            raise TranslateError('unknown variable %s' % e[1])
        if k == 'field' and e[1] == ('var', 'self') and e[2] == 'unsafe_mode':
            return [], 'unsafe_mode'
        if k == 'not':
            b, t = self.ex(e[1], 'bool')
            return b, '(negb %s)' % t
        if k == 'bin':
            op = e[1]
            if self.ty not in WIDTH:
                raise TranslateError('operator %s on a %s value' % (op, self.ty))
            w = WIDTH[self.ty]
            if op == '<<':
                b1, a = self.ex(e[2], self.ty)
                b2, p = self.ex(e[3], 'usize')
                t = self.fresh()
                return b1 + b2 + ['do %s <- i_shl %d %s %s;' % (t, w, a, p)], t
            if op == '^':
                b1, a = self.ex(e[2], self.ty)
                b2, c = self.ex(e[3], self.ty)
                return b1 + b2, '(i_xor %d %s %s)' % (w, a, c)
            raise TranslateError('operator %s is outside the translated vocabulary' % op)
        if k == 'call':
            recv, name, args = e[1], e[2], e[3]
            if recv == ('var', 'source'):
                if name == 'should_mutate' and args == [('var', 'rate')]:
                    t = self.fresh()
                    return ['let (%s, src) := should_mutate rate src in' % t], t
                if name == 'gen_bool' and not args:
                    t = self.fresh()
                    return ['let (%s, src) := gen_bool src in' % t], t
                if name == 'gen_range' and len(args) == 2:
                    b1, a = self.ex(args[0], 'usize')
                    b2, c = self.ex(args[1], 'usize')
                    t = self.fresh()
                    return b1 + b2 + ['do (%s, src) <- gen_range %s %s src;' % (t, a, c)], t
                raise TranslateError('source method %s is outside the translated vocabulary' % name)
            if name == 'len' and not args and recv[0] == 'var' and self.env.get(recv[1], ('',))[0] == 'arr':
                return [], '(N.of_nat (length %s))' % self.env[recv[1]][1]
            if name in ('wrapping_add', 'wrapping_sub', 'saturating_add', 'saturating_sub') and len(args) == 1:
                b1, a = self.ex(recv, self.ty)
                b2, c = self.ex(args[0], self.ty)
                if self.ty in WIDTH and name.startswith('wrapping'):
                    return b1 + b2, '(i_%s %d %s %s)' % (name, WIDTH[self.ty], a, c)
                if self.ty == 'usize' and name.startswith('saturating'):
                    return b1 + b2, '(u_%s %s %s)' % (name, a, c)
                raise TranslateError('%s on a %s value is outside the translated vocabulary' % (name, self.ty))
            raise TranslateError('method %s is outside the translated vocabulary' % name)
        if k == 'index':
            if e[1][0] == 'var' and self.env.get(e[1][1], ('',))[0] == 'arr':
                b, i = self.ex(e[2], 'usize')
                t = self.fresh()
                return b + ['do %s <- nth_res %s %s;' % (t, self.env[e[1][1]][1], i)], t
            raise TranslateError('indexing something that is not a local array')
        raise TranslateError('expression form %s is outside the translated vocabulary' % k)

    def ret(self, e):
        if e[0] == 'none':
            return 'Ok (None, src)'
        if e[0] == 'some':
            b, t = self.ex(e[1], self.ty)
            return ' '.join(b + ['Ok (Some %s, src)' % t])
        raise TranslateError('a mutator returns Some(..) or None')

    def block(self, stmts):
        if not stmts:
            raise TranslateError('block without a value')
        st, rest = stmts[0], stmts[1:]
        if st[0] == 'let':
            if st[2][0] == 'array':
                elem = self.ty
                items = [self.ex(x, elem) for x in st[2][1]]
                if any(b for b, _ in items):
                    raise TranslateError('array literal with effects')
                name = 'arr_%s' % st[1]
                self.env[st[1]] = ('arr', name)
                scope = '%Z' if elem in WIDTH else '%N'
                return 'let %s := [%s]%s in %s' % (name, '; '.join(t for _, t in items), '', self.block(rest))
            b, t = self.ex(st[2], 'usize')
            self.env[st[1]] = ('val', 'v_%s' % st[1])
            return ' '.join(b + ['let v_%s := %s in' % (st[1], t), self.block(rest)])
        if st[0] == 'return':
            return self.ret(st[1])
        e = st[1]
        if e[0] == 'if':
            b, c = self.ex(e[1], 'bool')
            if e[3] is None:
                if not rest:
                    raise TranslateError('if without else in tail position')
                return ' '.join(b + ['if %s then (%s) else (%s)' % (c, self.block(e[2]), self.block(rest))])
            if rest:
                raise TranslateError('statements after if/else')
            return ' '.join(b + ['if %s then (%s) else (%s)' % (c, self.block(e[2]), self.block(e[3]))])
        if e[0] == 'match':
            if rest:
                raise TranslateError('statements after match')
            b, s = self.ex(e[1], 'usize')
            arms = e[2]
            if not arms or arms[-1][0] is not None:
                raise TranslateError('match without a final _ arm')
            term = '(%s)' % self.block(arms[-1][1])
            for pat, body in reversed(arms[:-1]):
                term = '(if N.eqb %s %d then (%s) else %s)' % (s, pat, self.block(body), term)
            return ' '.join(b + [term])
        if st[0] == 'tail':
            return self.ret(e)
        raise TranslateError('statement form %s is outside the translated vocabulary' % st[0])


FUNCS = [('bitflip', 'BitFlipMutator', ['mutate_int', 'mutate_long']),
         ('boundary', 'BoundaryMutator', ['mutate_int', 'mutate_long', 'mutate_float']),
         ('offbyone', 'OffByOneMutator', ['mutate_int', 'mutate_long', 'mutate_memo_index']),
         ('memoindex', 'MemoIndexMutator', ['mutate_int', 'mutate_long', 'mutate_memo_index'])]
TY = {'mutate_int': 'i32', 'mutate_long': 'i64', 'mutate_float': 'f64', 'mutate_memo_index': 'usize'}
GTY = {'i32': 'Z', 'i64': 'Z', 'f64': 'N', 'usize': 'N'}


def impl_block(src, struct):
    m = re.search(r'impl\s+Mutator\s+for\s+' + struct + r'\s*\{', src)
    if not m:
        raise TranslateError('impl Mutator for %s not found' % struct)
    i = m.end() - 1
    depth, j = 0, i
    while j < len(src):
        if src[j] == '{':
            depth += 1
        elif src[j] == '}':
            depth -= 1
            if depth == 0:
                return src[i + 1:j]
        j += 1
    raise TranslateError('unbalanced braces in impl %s' % struct)


def translate(repo):
    out, errors = [], []
    for (mod, struct, fns) in FUNCS:
        src = open(os.path.join(repo, 'src', 'mutators', mod + '.rs')).read()
        src = re.sub(r'//[^\n]*', '', src)
        try:
            blk = impl_block(src, struct)
        except TranslateError as e:
            errors.append('%s: %s' % (mod, e))
            continue
        for fn in fns:
            name = '%s_%s' % (mod, fn)
            ty = TY[fn]
            if not re.search(r'\bfn\s+' + fn + r'\b', blk):
                # the trait's default method: never mutates, draws nothing
                out.append('Definition %s (unsafe_mode : bool) (value : %s) (src : source) (rate : N) : res (option %s * source) :=\n  Ok (None, src).' % (name, GTY[ty], GTY[ty]))
                continue
            try:
                sig = re.search(r'\bfn\s+' + fn + r'\s*\(([^)]*)\)', blk, re.S).group(1)
                params = [p.strip().split(':')[0].strip() for p in sig.split(',') if ':' in p]
                value_names = [p for p in params if p not in ('source', 'rate')]
                pty = re.search(r'(\w+)\s*:\s*(i32|i64|f64|usize)\b', sig)
                if not pty or pty.group(2) != ty:
                    raise TranslateError('unexpected value type in the signature of %s' % fn)
                body = '{' + fn_body(blk, fn) + '}'
                stmts = Parser(tokenize(body)).block()
                g = Gen(ty, value_names)
                term = g.block(stmts)
                out.append('Definition %s (unsafe_mode : bool) (value : %s) (src : source) (rate : N) : res (option %s * source) :=\n  %s.' % (name, GTY[ty], GTY[ty], term))
            except TranslateError as e:
                errors.append('%s::%s: %s' % (mod, fn, e))
                out.append('(* %s: not translated: %s *)' % (name, str(e).replace('*)', '* )')))
    return out, errors


def main():
    repo, outdir = sys.argv[1], sys.argv[2]
    defs, errors = translate(repo)
    text = ['(* GENERATED by tools/gen_mut.py from /repo/src/mutators/{bitflip,boundary,offbyone,memoindex}.rs - do not edit. *)',
            'From Coq Require Import List NArith ZArith Bool.', 'Import ListNotations.',
            'From PF Require Import Opcodes Config Lex Entropy Mutators SrcPrims.', 'Local Open Scope N_scope.', '',
            'Module Src.'] + defs + ['End Src.', '']
    path = os.path.join(outdir, 'SrcMutFns.v')
    new = '\n'.join(text)
    if not os.path.exists(path) or open(path).read() != new:
        open(path, 'w').write(new)
    if errors:
        print('SrcMutFns.v: ' + ' / '.join(errors))
        return 3
    return 0


if __name__ == '__main__':
    sys.exit(main())
