# applies the S8 hooks to /repo (run when /repo is free)
import re
p='/repo/src/generator/verif.rs'; s=open(p).read()
add = '''
/// build a simulated state by hand: push an object of the kind named by its trace letter.
pub fn push_kind(gen: &mut Generator, kind: char) -> bool {
    match object_of_kind(kind) {
        Some(obj) => {
            gen.state.stack.push(obj);
            true
        }
        None => false,
    }
}

/// build a simulated state by hand: memo[index] := an object of the given kind.
pub fn memo_kind(gen: &mut Generator, index: usize, kind: char) -> bool {
    match object_of_kind(kind) {
        Some(obj) => {
            gen.state
                .memo
                .insert(index, crate::stack::StackObjectRef::new(obj));
            true
        }
        None => false,
    }
}

fn object_of_kind(kind: char) -> Option<StackObject> {
    use crate::stack::{InstanceObject, StackObjectRef};
    let global = || StackObject::Global {
        module: "m".to_string(),
        name: "n".to_string(),
    };
    Some(match kind {
        'I' => StackObject::Int(7),
        'F' => StackObject::Float(1.5),
        'B' => StackObject::Bool(true),
        'N' => StackObject::None,
        'Y' => StackObject::Bytes(vec![1]),
        'S' => StackObject::String("s".to_string()),
        'A' => StackObject::ByteArray(vec![1]),
        'L' => StackObject::List(Vec::new()),
        'T' => StackObject::Tuple(Vec::new()),
        'D' => StackObject::Dict(Default::default()),
        'E' => StackObject::Set(Default::default()),
        'Z' => StackObject::FrozenSet(Default::default()),
        'M' => StackObject::Mark,
        'G' => global(),
        'O' => StackObject::Instance(InstanceObject {
            callable: StackObjectRef::new(global()),
            args: StackObjectRef::new(StackObject::Tuple(Vec::new())),
        }),
        'C' => StackObject::Callable(StackObjectRef::new(global())),
        _ => return None,
    })
}

/// the protocol header as `generate_internal` leaves it (PROTO written for protocol >= 2).
pub fn begin(gen: &mut Generator, source: &mut super::GenerationSource) {
    gen.reset();
    gen.emit_proto(source);
}

/// the candidate opcodes of the current state, in table order.
pub fn valid_opcodes(gen: &Generator) -> Vec<String> {
    gen.get_valid_opcodes()
        .iter()
        .map(|o| format!("{:?}", o))
        .collect()
}

fn norm(name: &str) -> String {
    name.chars()
        .filter(|c| *c != '_')
        .map(|c| c.to_ascii_lowercase())
        .collect()
}

/// emit ONE opcode, named as in the trace or as in pickletools, in the current state: the bytes it appended.
pub fn emit_one(
    gen: &mut Generator,
    opcode: &str,
    source: &mut super::GenerationSource,
) -> Result<Vec<u8>, String> {
    let row = crate::opcodes::PICKLE_OPCODES
        .get(&5u8)
        .ok_or_else(|| "no protocol-5 row".to_string())?;
    let op = row
        .iter()
        .copied()
        .find(|o| norm(&format!("{:?}", o)) == norm(opcode))
        .ok_or_else(|| format!("unknown opcode {}", opcode))?;
    let before = gen.output.len();
    gen.emit_and_process(op, source).map_err(|e| e.to_string())?;
    Ok(gen.output[before.min(gen.output.len())..].to_vec())
}

/// the collapse tail and STOP from the current state: the bytes appended.
pub fn finish(gen: &mut Generator) -> Vec<u8> {
    let before = gen.output.len();
    gen.cleanup_for_stop();
    gen.emit_opcode(OpcodeKind::Stop);
    gen.output[before.min(gen.output.len())..].to_vec()
}

/// the simulated state as the trace prints it (stack kinds bottom to top, memo by key).
pub fn state(gen: &Generator) -> String {
    state_string(gen)
}
'''
assert 'pub fn push_kind' not in s
s = s.rstrip('\n') + '\n' + add
open(p,'w').write(s)
p='/repo/src/lib.rs'; s=open(p).read()
s=s.replace("""        dispatch_bytes, dispatch_float, dispatch_int, dispatch_memo_index, dispatch_string, set_aliases,
        start, take,""","""        begin, dispatch_bytes, dispatch_float, dispatch_int, dispatch_memo_index, dispatch_string,
        emit_one, finish, memo_kind, push_kind, set_aliases, start, state, take, valid_opcodes,""")
open(p,'w').write(s)
