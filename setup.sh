#!/bin/bash
# Build the framework from files on disk only (offline): Coq development (full .vo build),
# extraction + OCaml driver, Rust harness against /repo with the verif-hooks feature.
set -e
cd "$(dirname "$0")"
export CARGO_NET_OFFLINE=true
python3 tools/gen_reftable.py /tmp/.reftable_check.$$ 2>/dev/null || true
mkdir -p /tmp/.reftable_check.$$ && python3 tools/gen_reftable.py /tmp/.reftable_check.$$
if ! diff -q /tmp/.reftable_check.$$/RefTable.v coq/RefTable.v >/dev/null || ! diff -q /tmp/.reftable_check.$$/Opcodes.v coq/Opcodes.v >/dev/null; then
  echo "WARNING: committed RefTable.v/Opcodes.v differ from the live interpreter's pickletools table" >&2
fi
rm -rf /tmp/.reftable_check.$$
python3 tools/gen_src.py /repo coq/gen || true
python3 tools/gen_mut.py /repo coq/gen || true
python3 tools/gen_drv.py /repo coq/gen || true
python3 tools/gen_utils.py /repo coq/gen || true
# the harness first: the witness seeds of Properties/C12s.v come from a census of the implementation
python3 - <<'PY'
import sys
sys.path.insert(0, 'tools')
import vlib
with vlib.Lock():
    vlib.build_harness()
    vlib.gen_seedwit()
PY
(cd coq && coq_makefile -f _CoqProject -o Makefile >/dev/null && timeout 3000 make -j16 2>&1 | tail -5)
python3 - <<'PY'
import sys
sys.path.insert(0, 'tools')
import vlib
with vlib.Lock():
    vlib.build_model_tools()
    vlib.build_front_ends()
print('setup: harness, driver, CLI binary and python extension built')
PY
